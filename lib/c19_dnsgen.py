# /verif/lib/c19_dnsgen.py — structure-aware DNS message generator for C19 (stdlib only).
#
# Shares no code with iora: its own wire encoder, its own name compressor (random choice of which
# suffix of a name is replaced by a pointer, and of which earlier occurrence it points to, including
# occurrences inside RDATA names), its own rendering of what a decoder must report, and byte-level
# mutators that know where the generator put pointers, labels, counts and RDLENGTH fields.
#
#   gen_message(rng)            -> Msg (wire bytes + expected rendering + site tables)
#   mutants(rng, msg, n)        -> [(bytes, cls, expect)]   expect: None | ("must-reject", why) |
#                                                           ("reject-or-drop", type, rr_count, why)
#   gen_bomb(rng)               -> bytes (pointer-chain message for the linear-time bound)
#   gen_query_case(rng)         -> dict(id, rd, qs=[(name bytes, type, class)])
#   ref_decode_questions(b)     -> (header tuple, [(labels, type, class)])  tiny reference decoder
import struct

T_A, T_NS, T_CNAME, T_SOA, T_PTR, T_MX, T_TXT, T_AAAA, T_SRV, T_NAPTR = 1, 2, 5, 6, 12, 15, 16, 28, 33, 35
TYPED = {T_A: "A", T_AAAA: "AAAA", T_SRV: "SRV", T_NAPTR: "NAPTR", T_CNAME: "CNAME", T_MX: "MX",
         T_TXT: "TXT", T_PTR: "PTR", T_SOA: "SOA"}
TYPED_ORDER = ["A", "AAAA", "SRV", "NAPTR", "CNAME", "MX", "TXT", "PTR", "SOA"]
NAME_RDATA_TYPES = (T_CNAME, T_PTR, T_MX, T_SRV, T_NAPTR, T_SOA)   # typed records whose RDATA holds a name iora walks
GENERIC_TYPES = [T_NS, 13, 17, 24, 25, 29, 39, 41, 43, 46, 47, 48, 50, 52, 99, 249, 250, 255, 256, 257, 32768, 65280, 65535]

LDH = b"abcdefghijklmnopqrstuvwxyzABCDEFGHIJKLMNOPQRSTUVWXYZ0123456789-_"


def name_hex(labels):
    return b".".join(labels).hex()


def wire_len(labels):
    return sum(len(l) + 1 for l in labels) + 1


def gen_label(rng, binary=False, length=None):
    if length is None:
        r = rng.random()
        length = rng.randint(1, 12) if r < 0.85 else (63 if r < 0.92 else rng.randint(13, 62))
    if binary:
        out = bytearray()
        while len(out) < length:
            b = rng.randrange(256)
            if b != 0x2E:            # iora reports names as unescaped dotted strings: a '.' byte inside a label is not representable
                out.append(b)
        return bytes(out)
    return bytes(rng.choice(LDH) for _ in range(length))


class NamePool:
    """names of one message: a few zones and hosts below them, so suffixes repeat and the compressor has choices"""

    def __init__(self, rng, binary, maxwire=255):
        self.rng = rng
        self.binary = binary
        self.maxwire = maxwire
        nz = rng.randint(1, 3)
        self.zones = []
        for _ in range(nz):
            depth = rng.randint(1, 3)
            self.zones.append([gen_label(rng, binary and rng.random() < 0.3) for _ in range(depth)])
        self.made = []

    def name(self):
        rng = self.rng
        r = rng.random()
        if r < 0.04:
            return []                                  # root
        if r < 0.30 and self.made:
            n = list(rng.choice(self.made))           # exact repeat (whole-name pointer possible)
            if rng.random() < 0.15 and n:
                i = rng.randrange(len(n))
                n[i] = n[i].swapcase()                # same name in another case: must NOT be served from a case-insensitive match
            return n
        z = list(rng.choice(self.zones))
        pre = [gen_label(rng, self.binary and rng.random() < 0.3) for _ in range(rng.choice((0, 1, 1, 1, 2, 2, 3, 5)))]
        n = pre + z
        while wire_len(n) > self.maxwire:
            n.pop(0)
        self.made.append(n)
        return n

    def long_name(self, target_wire):
        """a name whose wire length (labels + length octets + root octet) is exactly target_wire"""
        rng = self.rng
        n, left = [], target_wire - 1
        while left > 0:
            l = min(63, left - 1)
            if left - 1 > 63 and left - 1 - 63 == 1:   # would leave a single octet (length without label)
                l = 62
            if l <= 0:
                break
            n.append(gen_label(rng, False, l))
            left -= l + 1
        assert wire_len(n) == target_wire, (wire_len(n), target_wire)
        self.made.append(n)
        return n


class Enc:
    def __init__(self, rng, p_compress):
        self.rng = rng
        self.p = p_compress
        self.buf = bytearray()
        self.table = {}            # tuple(labels[i:]) -> [offsets]
        self.ptr_sites = []        # dict(off, where, rrtype, name_start, target)
        self.label_sites = []      # dict(off, where)
        self.used = set()          # ("owner"|"q"|"rdata", "ptr") compression positions used

    def u8(self, v): self.buf.append(v & 0xFF)
    def u16(self, v): self.buf += struct.pack(">H", v & 0xFFFF)
    def u32(self, v): self.buf += struct.pack(">I", v & 0xFFFFFFFF)
    def raw(self, b): self.buf += b

    def name(self, labels, where, rrtype=None, allow=True):
        rng, n = self.rng, len(labels)
        cut = None
        if allow and self.p > 0:
            cands = [i for i in range(n) if tuple(labels[i:]) in self.table]
            if cands and rng.random() < self.p:
                cut = cands[0] if rng.random() < 0.6 else rng.choice(cands)
        start = len(self.buf)
        upto = n if cut is None else cut
        for i in range(upto):
            off = len(self.buf)
            if off < 0x4000:
                self.table.setdefault(tuple(labels[i:]), []).append(off)
            self.label_sites.append(dict(off=off, where=where, rrtype=rrtype))
            self.u8(len(labels[i]))
            self.raw(labels[i])
        if cut is None:
            self.u8(0)
        else:
            target = rng.choice(self.table[tuple(labels[cut:])])
            self.ptr_sites.append(dict(off=len(self.buf), where=where, rrtype=rrtype, name_start=start, target=target))
            self.used.add((where, "ptr" if cut > 0 else "whole"))
            self.u16(0xC000 | target)


def charstr(rng, hi, maxlen=40):
    r = rng.random()
    l = 0 if r < 0.08 else (255 if r < 0.11 else rng.randint(1, maxlen))
    if hi:
        return bytes(rng.randrange(256) for _ in range(l))
    return bytes(rng.randrange(0x20, 0x7F) for _ in range(l))


class Msg:
    pass


def gen_rr(rng, pool, hi, section):
    r = rng.random()
    if r < 0.82:
        t = rng.choice((T_A, T_A, T_AAAA, T_AAAA, T_SRV, T_SRV, T_NAPTR, T_NAPTR, T_CNAME, T_MX, T_TXT, T_TXT, T_PTR, T_SOA))
    else:
        t = rng.choice(GENERIC_TYPES)
    rr = dict(owner=pool.name(), type=t, cls=1, ttl=rng.choice((0, 1, 30, 300, 3600, 86400, 0x7FFFFFFF, 0x80000000, 0xFFFFFFFF, rng.randrange(1 << 32))),
              section=section)
    if t not in TYPED:
        rr["cls"] = rng.choice((1, 1, 1, 3, 4, 254, 255, rng.randrange(65536)))
    if t == T_A:
        rr["addr"] = bytes((rng.randrange(256) if hi else rng.randrange(0xC0)) if i == 0 else rng.randrange(256) for i in range(4))
        if hi and rng.random() < 0.01:
            rr["addr"] = bytes((0xC0, rng.randrange(64), 0, 0))      # 192.0-63.0.0: a perfectly good address
    elif t == T_AAAA:
        if hi:
            rr["addr"] = bytes(rng.randrange(256) for _ in range(16))
        else:
            rr["addr"] = bytes(rng.randrange(0xC0) for _ in range(15)) + bytes((rng.randrange(256),))
        if rng.random() < 0.1:
            rr["addr"] = bytes(10) + rng.choice((b"\xff\xff", b"\x00\x00")) + rr["addr"][12:]   # v4-mapped / compatible text forms
        if rng.random() < 0.05:
            rr["addr"] = bytes(16) if rng.random() < 0.5 else bytes(15) + b"\x01"
        if not hi:
            rr["addr"] = bytes(b if (b < 0xC0 or i == 15) else 0x20 for i, b in enumerate(rr["addr"]))
    elif t in (T_CNAME, T_PTR, T_NS):
        rr["target"] = pool.name()
    elif t == T_MX:
        rr["pref"] = rng.randrange(65536)
        rr["target"] = pool.name()
    elif t == T_SRV:
        rr["prio"], rr["weight"], rr["port"] = rng.randrange(65536), rng.randrange(65536), rng.randrange(65536)
        rr["target"] = pool.name()
    elif t == T_NAPTR:
        rr["order"], rr["pref"] = rng.randrange(65536), rng.randrange(65536)
        rr["flags"], rr["service"], rr["regexp"] = charstr(rng, hi, 4), charstr(rng, hi, 16), charstr(rng, hi, 40)
        rr["target"] = pool.name()
    elif t == T_TXT:
        rr["text"] = [charstr(rng, hi, 60) for _ in range(rng.choice((1, 1, 1, 2, 3, 5)))]
    elif t == T_SOA:
        rr["mname"], rr["rname"] = pool.name(), pool.name()
        rr["nums"] = [rng.choice((0, 1, 300, 0xFFFFFFFF, rng.randrange(1 << 32))) for _ in range(5)]
    else:
        l = rng.choice((0, 0, 1, 2, 4, 16, rng.randint(0, 300)))
        rr["raw"] = bytes(rng.randrange(256) for _ in range(l))
    return rr


def encode_rr(enc, rr, compress_rdata=True):
    t = rr["type"]
    start = len(enc.buf)
    enc.name(rr["owner"], "owner", t)
    enc.u16(t); enc.u16(rr["cls"]); enc.u32(rr["ttl"])
    rdlen_off = len(enc.buf)
    enc.u16(0)
    rd0 = len(enc.buf)
    if t in (T_A, T_AAAA):
        enc.raw(rr["addr"])
    elif t in (T_CNAME, T_PTR, T_NS):
        enc.name(rr["target"], "rdata", t, compress_rdata)
    elif t == T_MX:
        enc.u16(rr["pref"]); enc.name(rr["target"], "rdata", t, compress_rdata)
    elif t == T_SRV:
        enc.u16(rr["prio"]); enc.u16(rr["weight"]); enc.u16(rr["port"]); enc.name(rr["target"], "rdata", t, compress_rdata)
    elif t == T_NAPTR:
        enc.u16(rr["order"]); enc.u16(rr["pref"])
        for k in ("flags", "service", "regexp"):
            enc.u8(len(rr[k])); enc.raw(rr[k])
        enc.name(rr["target"], "rdata", t, compress_rdata)
    elif t == T_TXT:
        for s in rr["text"]:
            enc.u8(len(s)); enc.raw(s)
    elif t == T_SOA:
        enc.name(rr["mname"], "rdata", t, compress_rdata); enc.name(rr["rname"], "rdata", t, compress_rdata)
        for v in rr["nums"]:
            enc.u32(v)
    else:
        enc.raw(rr["raw"])
    rdlen = len(enc.buf) - rd0
    enc.buf[rdlen_off:rdlen_off + 2] = struct.pack(">H", rdlen)
    rr["span"] = dict(start=start, rdlen_off=rdlen_off, rd0=rd0, rdlen=rdlen, type_off=rdlen_off - 8)


def expected_rendering(m):
    h = m.header
    exp = {"h": [h["id"], h["qr"], h["op"], h["aa"], h["tc"], h["rd"], h["ra"], h["z"], h["rc"],
                 len(m.questions), len(m.sections["an"]), len(m.sections["ns"]), len(m.sections["ar"])],
           "q": [[name_hex(q[0]), q[1], q[2]] for q in m.questions]}
    for k in TYPED_ORDER:
        exp[k] = []
    for sec in ("an", "ns", "ar"):
        lst = []
        for rr in m.sections[sec]:
            sp = rr["span"]
            lst.append([name_hex(rr["owner"]), rr["type"], rr["cls"], rr["ttl"], sp["rdlen"],
                        bytes(m.wire[sp["rd0"]:sp["rd0"] + sp["rdlen"]]).hex()])
            t, nm, ttl = rr["type"], name_hex(rr["owner"]), rr["ttl"]
            if t == T_A:
                exp["A"].append([nm, ttl, ".".join(str(b) for b in rr["addr"])])
            elif t == T_AAAA:
                exp["AAAA"].append([nm, ttl, rr["addr"].hex()])          # compared by value (see normalise_actual)
            elif t == T_SRV:
                exp["SRV"].append([nm, ttl, rr["prio"], rr["weight"], rr["port"], name_hex(rr["target"])])
            elif t == T_NAPTR:
                exp["NAPTR"].append([nm, ttl, rr["order"], rr["pref"], rr["flags"].hex(), rr["service"].hex(),
                                     rr["regexp"].hex(), name_hex(rr["target"])])
            elif t == T_CNAME:
                exp["CNAME"].append([nm, ttl, name_hex(rr["target"])])
            elif t == T_MX:
                exp["MX"].append([nm, ttl, rr["pref"], name_hex(rr["target"])])
            elif t == T_TXT:
                exp["TXT"].append([nm, ttl, [s.hex() for s in rr["text"]]])
            elif t == T_PTR:
                exp["PTR"].append([nm, ttl, name_hex(rr["target"])])
            elif t == T_SOA:
                exp["SOA"].append([nm, ttl, name_hex(rr["mname"]), name_hex(rr["rname"])] + list(rr["nums"]))
        exp[sec] = lst
    return exp


def normalise_actual(r):
    """bring iora's rendering into the comparison form: AAAA text -> 16 address bytes (so the check does
    not depend on which of the legal text forms the library prints)"""
    import ipaddress
    out = dict(r)
    aaaa = []
    for e in r.get("AAAA", []):
        try:
            aaaa.append([e[0], e[1], ipaddress.IPv6Address(e[2]).packed.hex()])
        except ValueError:
            aaaa.append([e[0], e[1], "unparseable:" + str(e[2])])
    out["AAAA"] = aaaa
    return out


def gen_message(rng, force=None):
    """force: None | "clean" (no bytes that trip the known AAAA/TXT/A findings, no max-length names)"""
    m = Msg()
    clean = force == "clean"
    hi = (not clean) and rng.random() < 0.5
    binary = rng.random() < 0.25
    pool = NamePool(rng, binary, 254 if clean else 255)
    p = rng.choice((0.0, 0.3, 0.7, 1.0, 1.0))
    enc = Enc(rng, p)
    m.header = dict(id=rng.randrange(65536), qr=rng.choice((1, 1, 1, 0)), op=rng.choice((0, 0, 0, 0, 1, 2, 4, 5, rng.randrange(16))),
                    aa=rng.randrange(2), tc=rng.randrange(2), rd=rng.randrange(2), ra=rng.randrange(2), z=rng.choice((0, 0, 0, rng.randrange(8))),
                    rc=rng.choice((0, 0, 0, 2, 3, 5, rng.randrange(16))))
    nq = rng.choice((0, 1, 1, 1, 1, 1, 2, 3))
    shape = rng.random()
    if shape < 0.15:
        counts = (0, rng.choice((0, 1)), 0)
    elif shape < 0.9:
        counts = (rng.randint(0, 4), rng.randint(0, 2), rng.randint(0, 3))
    else:
        counts = (rng.randint(3, 25), rng.randint(0, 6), rng.randint(0, 12))
    m.maxname = None
    m.questions = []
    for _ in range(nq):
        m.questions.append((pool.name(), rng.choice((1, 28, 33, 35, 255, 5, 15, 16, 12, 6, rng.randrange(65536))), rng.choice((1, 1, 1, 3, 255, rng.randrange(65536)))))
    m.sections = {"an": [], "ns": [], "ar": []}
    for sec, c in zip(("an", "ns", "ar"), counts):
        for _ in range(c):
            m.sections[sec].append(gen_rr(rng, pool, hi, sec))
    # boundary names: wire length 253 / 254 / 255 (255 is the protocol maximum)
    if not clean and rng.random() < 0.06:
        w = rng.choice((253, 254, 255))
        ln = pool.long_name(w)
        m.maxname = w
        where = rng.choice(("q", "owner", "rdata"))
        if where == "q" or not any(m.sections.values()):
            m.questions.append((ln, 1, 1))
        else:
            rrs = [r for s in m.sections.values() for r in s]
            rr = rng.choice(rrs)
            if where == "rdata" and "target" in rr:
                rr["target"] = ln
            else:
                rr["owner"] = ln
    hflags = (m.header["qr"] << 15) | (m.header["op"] << 11) | (m.header["aa"] << 10) | (m.header["tc"] << 9) | (m.header["rd"] << 8) | \
             (m.header["ra"] << 7) | (m.header["z"] << 4) | m.header["rc"]
    enc.u16(m.header["id"]); enc.u16(hflags)
    enc.u16(len(m.questions)); enc.u16(len(m.sections["an"])); enc.u16(len(m.sections["ns"])); enc.u16(len(m.sections["ar"]))
    for q in m.questions:
        enc.name(q[0], "q")
        enc.u16(q[1]); enc.u16(q[2])
    for sec in ("an", "ns", "ar"):
        for rr in m.sections[sec]:
            encode_rr(enc, rr)
    m.wire = bytes(enc.buf)
    m.enc = enc
    m.hi = hi
    m.binary = binary
    m.expected = expected_rendering(m)
    types = sorted({TYPED.get(rr["type"], "gen") for s in m.sections.values() for rr in s})
    into_rdata = any(any(sp2["rd0"] <= ps["target"] < sp2["rd0"] + sp2["rdlen"] for sp2 in (r["span"] for s in m.sections.values() for r in s))
                     for ps in enc.ptr_sites)
    # where names of the maximum wire length (255 octets) sit
    m.walked255 = any(wire_len(q[0]) == 255 for q in m.questions) or \
        any(wire_len(rr["owner"]) == 255 for s in m.sections.values() for rr in s)
    m.rdata255 = {TYPED[rr["type"]] for s in m.sections.values() for rr in s if rr["type"] in TYPED
                  for k in ("target", "mname", "rname") if k in rr and wire_len(rr[k]) == 255}
    m.into_rdata = into_rdata
    m.sigs = [("layout", tuple(sorted(enc.used)), into_rdata, binary, m.walked255 or bool(m.rdata255), len(m.wire) > 512,
               tuple(c > 0 for c in counts), nq > 0)]
    for s in m.sections.values():
        for rr in s:
            t = rr["type"]
            sp = rr["span"]
            comp = any(sp["rd0"] <= ps["off"] < sp["rd0"] + sp["rdlen"] for ps in enc.ptr_sites)
            ownerc = any(sp["start"] <= ps["off"] < sp["rdlen_off"] - 8 for ps in enc.ptr_sites)
            m.sigs.append(("rr", TYPED.get(t, "generic"), rr["section"], comp, ownerc, hi and t in (T_A, T_AAAA, T_TXT, T_NAPTR)))
    return m


# ------------------------------------------------------------------------------------- mutators
def rr_type_counts(m):
    c = {}
    for s in m.sections.values():
        for rr in s:
            k = TYPED.get(rr["type"])
            if k:
                c[k] = c.get(k, 0) + 1
    return c


def mut_pointer(rng, m):
    """rewrite one compression pointer the generator placed: self / loop / 2-cycle / out-of-range / forward"""
    sites = m.enc.ptr_sites
    if not sites:
        return None
    s = rng.choice(sites)
    b = bytearray(m.wire)
    kind = rng.choice(("self", "loop", "cycle2", "oor", "oor", "forward", "last-byte"))
    if kind == "self":
        v = s["off"]
    elif kind == "loop":
        v = s["name_start"]
    elif kind == "cycle2":
        others = [o for o in sites if o is not s]
        if not others:
            v = s["off"]; kind = "self"
        else:
            o = rng.choice(others)
            v = o["off"]
            b[o["off"]:o["off"] + 2] = struct.pack(">H", 0xC000 | s["off"])
            if o["where"] in ("q", "owner") and s["where"] == "rdata":
                s = o                                    # judge by the stricter site (both are on walked paths)
    elif kind == "oor":
        if len(b) >= 0x3FFF:
            return None                               # every 14-bit pointer value is in range for such a message
        v = rng.choice((len(b), len(b) + 1, 0x3FFF, rng.randint(len(b), 0x3FFF)))
    elif kind == "last-byte":
        v = len(b) - 1
    else:
        v = rng.randint(min(s["off"] + 2, len(b) - 1), len(b) - 1)
    if v > 0x3FFF:
        v = 0x3FFF
    b[s["off"]:s["off"] + 2] = struct.pack(">H", 0xC000 | v)
    expect = None
    if kind in ("self", "loop", "cycle2", "oor"):
        why = "pointer-loop" if kind in ("self", "loop", "cycle2") else "pointer-out-of-range"
        if s["where"] in ("q", "owner"):
            expect = ("must-reject", why, kind, s["where"])
        elif s["rrtype"] in NAME_RDATA_TYPES:
            expect = ("reject-or-drop", TYPED[s["rrtype"]], rr_type_counts(m).get(TYPED[s["rrtype"]], 0), why, kind)
    return bytes(b), "ptr-" + kind + "-" + s["where"], expect


def mut_counts(rng, m):
    b = bytearray(m.wire)
    which = rng.randrange(4)
    off = 4 + 2 * which
    old = struct.unpack(">H", b[off:off + 2])[0]
    new = rng.choice((old + 1, old + rng.randint(2, 50), 0xFFFF, max(0, old - 1), rng.randrange(65536)))
    b[off:off + 2] = struct.pack(">H", new & 0xFFFF)
    return bytes(b), "count-" + ("qd", "an", "ns", "ar")[which] + ("-inflate" if new > old else "-deflate"), None


def mut_label(rng, m):
    sites = m.enc.label_sites
    if not sites:
        return None
    s = rng.choice(sites)
    b = bytearray(m.wire)
    v = rng.choice((64, 65, 0x7F, 0x80, 0xBF, rng.randint(64, 0xBF), 63, 0))
    b[s["off"]] = v
    return bytes(b), "label-len-%s-%s" % ("ge64" if v >= 64 else str(v), s["where"]), None


def mut_rdlength(rng, m):
    rrs = [r for s in m.sections.values() for r in s]
    if not rrs:
        return None
    rr = rng.choice(rrs)
    sp = rr["span"]
    b = bytearray(m.wire)
    new = rng.choice((0, 1, 2, sp["rdlen"] + 1, max(0, sp["rdlen"] - 1), 0xFFFF, rng.randrange(65536), rng.randint(0, 24)))
    b[sp["rdlen_off"]:sp["rdlen_off"] + 2] = struct.pack(">H", new)
    return bytes(b), "rdlength-%s-%s" % ("zero" if new == 0 else "other", TYPED.get(rr["type"], "gen")), None


def mut_empty_rdata(rng, m):
    """an RR of a random supported type with RDLENGTH 0 appended as one more answer/additional"""
    b = bytearray(m.wire)
    t = rng.choice(list(TYPED.keys()))
    # appended after everything else, so it belongs to the additional section: bump ARCOUNT
    old = struct.unpack(">H", b[10:12])[0]
    b[10:12] = struct.pack(">H", (old + 1) & 0xFFFF)
    b += b"\x00" + struct.pack(">HHIH", t, 1, 60, 0)
    return bytes(b), "empty-rdata-" + TYPED[t], None


def mut_type(rng, m):
    rrs = [r for s in m.sections.values() for r in s]
    if not rrs:
        return None
    rr = rng.choice(rrs)
    b = bytearray(m.wire)
    t = rng.choice(list(TYPED.keys()))
    o = rr["span"]["type_off"]
    b[o:o + 2] = struct.pack(">H", t)
    return bytes(b), "retype-%s-as-%s" % (TYPED.get(rr["type"], "gen"), TYPED[t]), None


def mut_bytes(rng, m):
    b = bytearray(m.wire)
    k = rng.choice(("flip", "flip", "set", "insert", "delete", "dup"))
    n = rng.choice((1, 1, 2, 4))
    for _ in range(n):
        if not b:
            break
        i = rng.randrange(len(b))
        if k == "flip":
            b[i] ^= 1 << rng.randrange(8)
        elif k == "set":
            b[i] = rng.choice((0, 0xC0, 0xFF, 0x3F, 0x40, rng.randrange(256)))
        elif k == "insert":
            b[i:i] = bytes(rng.randrange(256) for _ in range(rng.randint(1, 4)))
        elif k == "delete":
            del b[i:i + rng.randint(1, 4)]
        else:
            j = rng.randrange(len(b))
            b[i:i] = b[j:j + rng.randint(1, 16)]
    return bytes(b), "bytes-" + k, None


def mut_overlong_name(rng, m):
    """a question whose name is longer than 255 octets, built from pointer-chained label runs that live in the
    RDATA of an unknown-type additional record (the question name is a pointer to the last run)"""
    hdr = bytearray(m.wire[:12])
    hdr[4:12] = struct.pack(">HHHH", 1, 0, 0, 1)
    blob_off = 12 + 6 + 11
    out = bytearray()
    offs = []
    for i in range(rng.randint(2, 6)):
        offs.append(blob_off + len(out))
        run = rng.randint(120, 250)
        while run > 1:
            l = min(63, run - 1, rng.randint(1, 63))
            out.append(l); out += bytes(rng.choice(LDH) for _ in range(l))
            run -= l + 1
        if i == 0:
            out.append(0)
        else:
            out += struct.pack(">H", 0xC000 | offs[i - 1])
    q = struct.pack(">H", 0xC000 | offs[-1]) + struct.pack(">HH", 1, 1)
    rr_head = b"\x00" + struct.pack(">HHIH", 65280, 1, 0, len(out))
    return bytes(hdr + q + rr_head + out), "name-over-255-via-pointers", None


MUTATORS = [(mut_pointer, 30), (mut_counts, 10), (mut_label, 10), (mut_rdlength, 12), (mut_empty_rdata, 1), (mut_type, 10),
            (mut_bytes, 20), (mut_overlong_name, 2)]


def mutants(rng, m, n):
    out = []
    tot = sum(w for _, w in MUTATORS)
    tries = 0
    while len(out) < n and tries < n * 4:
        tries += 1
        r = rng.randrange(tot)
        for f, w in MUTATORS:
            if r < w:
                break
            r -= w
        res = f(rng, m)
        if res is None:
            continue
        b, cls, expect = res
        if len(b) > 65535:
            continue
        out.append((b, cls, expect))
    return out


def gen_random_bytes(rng):
    l = rng.choice((0, 1, 11, 12, 13, 17, 32, rng.randint(0, 600)))
    b = bytearray(rng.randrange(256) for _ in range(l))
    if l >= 12 and rng.random() < 0.7:      # plausible counts so the decoder gets past the header
        b[4:12] = struct.pack(">HHHH", rng.randint(0, 3), rng.randint(0, 3), rng.randint(0, 2), rng.randint(0, 2))
    return bytes(b), "random-bytes"


def gen_bomb(rng, size, max_chain=None):
    """pointer-chain message: `chain` two-byte pointers each pointing at the next, ending in a root label, held in
    the RDATA of one unknown-type record; then as many records as fit whose owner name is a pointer to the chain
    head. Every owner name costs `chain` jumps, so total work is chain x records = O(size^2)."""
    body_budget = size - 12
    chain = max(4, (body_budget // 2) // 2)          # half the space for the chain
    if max_chain:
        chain = min(chain, max_chain)                # stay below a decoder's per-name hop limit: every name must be walked in full
    # record 0: owner root, type 65280, RDATA = chain
    rr0_head_len = 1 + 10
    chain_off = 12 + rr0_head_len
    chain_bytes = bytearray()
    # head is the first pointer; pointer i -> pointer i+1; the last entry is a root label
    for i in range(chain):
        nxt = chain_off + 2 * (i + 1)
        if nxt > 0x3FFF:
            break
        chain_bytes += struct.pack(">H", 0xC000 | nxt)
    chain_bytes += b"\x00"
    rr0 = b"\x00" + struct.pack(">HHIH", 65280, 1, 0, len(chain_bytes)) + bytes(chain_bytes)
    left = size - 12 - len(rr0)
    n = min(65000, max(0, left // 12))
    rec = struct.pack(">H", 0xC000 | chain_off) + struct.pack(">HHIH", 65281, 1, 0, 0)
    hdr = struct.pack(">HHHHHH", rng.randrange(65536), 0x8180, 0, 1 + n if 1 + n < 65536 else 65535, 0, 0)
    return hdr + rr0 + rec * n, len(chain_bytes) // 2, n


# ------------------------------------------------------------------------------------- queries
def gen_query_case(rng):
    nq = rng.choice((1, 1, 1, 1, 2, 3, 0))
    qs = []
    for _ in range(nq):
        r = rng.random()
        if r < 0.70:
            labels = [gen_label(rng, rng.random() < 0.1) for _ in range(rng.randint(1, 6))]
            name = b".".join(labels)
            if rng.random() < 0.2:
                name += b"."                      # trailing dot
            if rng.random() < 0.05:
                name = name.replace(b".", b"..", 1)  # empty label: skipped by the encoder
        elif r < 0.75:
            name = rng.choice((b"", b"."))
        elif r < 0.85:                              # label length boundary 63 / 64
            name = gen_label(rng, False, rng.choice((63, 64, 65, 100))) + b".example"
        else:                                       # name length boundary
            w = rng.choice((250, 252, 253, 254, 255, 256, 257, 300))
            labels, left = [], w - 1
            while left > 1:
                l = min(63, left - 1)
                if left - 1 - l == 1:
                    l -= 1
                labels.append(gen_label(rng, False, l)); left -= l + 1
            name = b".".join(labels)
        qs.append((name, rng.choice((1, 28, 33, 35, 255, 5, 6, 12, 15, 16, rng.randrange(65536))), rng.choice((1, 1, 3, 255, rng.randrange(65536)))))
    return dict(id=rng.choice((0, 1, 0xFFFF, rng.randrange(65536))), rd=rng.choice((0, 1, 2)), qs=qs)


def query_expect(case):
    """(valid, [(labels, type, class)]) under RFC 1035 limits: label <= 63, wire name <= 255"""
    out, valid = [], True
    for name, t, c in case["qs"]:
        labels = [l for l in name.split(b".") if l]
        if any(len(l) > 63 for l in labels) or wire_len(labels) > 255:
            valid = False
        out.append((labels, t, c))
    return valid, out


def ref_decode_name(b, off, depth=0):
    labels, jumped, end = [], False, None
    seen = set()
    while True:
        if off >= len(b):
            raise ValueError("name runs past the end")
        l = b[off]
        if l & 0xC0 == 0xC0:
            if off + 1 >= len(b):
                raise ValueError("pointer cut")
            p = ((l & 0x3F) << 8) | b[off + 1]
            if not jumped:
                end = off + 2
            jumped = True
            if p in seen or p >= len(b):
                raise ValueError("bad pointer")
            seen.add(p)
            off = p
            continue
        if l & 0xC0:
            raise ValueError("label type")
        if l == 0:
            off += 1
            break
        labels.append(bytes(b[off + 1:off + 1 + l]))
        if len(labels[-1]) != l:
            raise ValueError("label cut")
        off += 1 + l
    return labels, (end if jumped else off)


def ref_decode_questions(b):
    if len(b) < 12:
        raise ValueError("short")
    idv, flags, qd, an, ns, ar = struct.unpack(">HHHHHH", b[:12])
    off = 12
    qs = []
    for _ in range(qd):
        labels, off = ref_decode_name(b, off)
        if off + 4 > len(b):
            raise ValueError("question cut")
        t, c = struct.unpack(">HH", b[off:off + 4])
        off += 4
        qs.append((labels, t, c))
    return (idv, flags, qd, an, ns, ar), qs, off


def write_batch(path, entries):
    """entries: [(bytes, kind)]; kind bit0 = truncation sweep over every prefix, bit1 = brief output"""
    with open(path, "wb") as fh:
        fh.write(b"C19B" + struct.pack("<I", len(entries)))
        for b, kind in entries:
            fh.write(struct.pack("<IB", len(b), kind))
            fh.write(b)
