#!/bin/bash
# Regenerates every claimed check's evidence file from a real quick run in /verif against /repo (seed 1),
# validates each against the evidence schema and prints a summary. Run it on a quiet machine before committing.
cd /verif
ids=$(python3 -c "import json; print(' '.join(c['property_id'] for c in json.load(open('MANIFEST.json'))['checks']))")
lib/runall.sh ${1:-1} quick $ids
python3-vt - <<'PY'
import json,jsonschema,glob
sch=json.load(open('/root/.vp/EVIDENCE.schema.json'))
m=json.load(open('/verif/MANIFEST.json'))
bad=0
for c in m['checks']:
    f=c['evidence_file']
    try:
        d=json.load(open(f)); jsonschema.validate(d,sch)
        assert d['level']==c['level_claimed']['category'], f"level {d['level']} != claimed {c['level_claimed']['category']}"
        assert d.get('violations',0)==0, f"violations={d.get('violations')}"
        print(c['property_id'],'ok',d['tier'],d['coverage']['evaluations'],d['coverage']['distinct_nontrivial'])
    except Exception as e:
        bad+=1; print(c['property_id'],'BAD',str(e)[:200])
print('bad =',bad)
PY
