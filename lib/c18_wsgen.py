# /verif/lib/c18_wsgen.py — C18 reference WebSocket codec (RFC 6455 §5), receiver model and
# protocol-aware generator. Shares no code with iora: every stream is built from a list of Frame
# objects with this module's own encoder; the expected deliveries come from the receiver model
# run over that list (never from parsing bytes with iora). The decoder is used on what the iora
# endpoints put on the wire (captured by the raw peer) and on frame-level cross checks.
# stdlib only.
import hashlib, random, struct

OP_CONT, OP_TEXT, OP_BIN, OP_CLOSE, OP_PING, OP_PONG = 0x0, 0x1, 0x2, 0x8, 0x9, 0xA
KNOWN_OPS = (OP_CONT, OP_TEXT, OP_BIN, OP_CLOSE, OP_PING, OP_PONG)
CONTROL_OPS = (OP_CLOSE, OP_PING, OP_PONG)
OPNAME = {0: "cont", 1: "text", 2: "binary", 8: "close", 9: "ping", 10: "pong"}
MARK_CODE = 4999                    # close code of the harness-originated flush marker (in-process mode)
DEFAULT_MAX = 1024 * 1024           # configured maximum for the valid corpora
SMALL_MAX = 4096                    # configured maximum for the hostile "beyond the maximum" cases
FLOOD = 512 * 1024                  # bytes streamed behind a header that declares a length beyond the maximum
KIB = 1024


def sha1(b):
    return hashlib.sha1(bytes(b)).hexdigest()


def is_utf8(b):
    try:
        bytes(b).decode("utf-8")      # strict: rejects overlong forms, surrogates, > U+10FFFF, truncation
        return True
    except UnicodeDecodeError:
        return False


# ------------------------------------------------------------------------------------------------
# reference codec

class Frame:
    __slots__ = ("fin", "rsv", "opcode", "payload", "mask", "lenform", "declared")

    def __init__(self, opcode, payload=b"", fin=True, mask=None, rsv=0, lenform=None, declared=None):
        self.fin, self.rsv, self.opcode, self.payload = bool(fin), rsv, opcode, bytes(payload)
        self.mask = bytes(mask) if mask is not None else None
        self.lenform = lenform        # None = minimal; 7 / 16 / 64 force an encoding (hostile only)
        self.declared = declared      # None = len(payload); otherwise the length written in the header

    def is_control(self):
        return self.opcode in CONTROL_OPS

    def key(self):
        return (self.fin, self.rsv, self.opcode, self.payload, self.mask)

    def __repr__(self):
        return "Frame(%s fin=%d len=%d%s)" % (OPNAME.get(self.opcode, hex(self.opcode)), self.fin, len(self.payload),
                                             " masked" if self.mask is not None else "")


def xor_mask(payload, key):
    if not payload:
        return b""
    n = len(payload)
    k = (key * (n // 4 + 1))[:n]
    return (int.from_bytes(payload, "big") ^ int.from_bytes(k, "big")).to_bytes(n, "big")


def encode(f):
    n = len(f.payload) if f.declared is None else f.declared
    form = f.lenform or (7 if n <= 125 else 16 if n <= 0xFFFF else 64)
    b0 = (0x80 if f.fin else 0) | ((f.rsv & 7) << 4) | (f.opcode & 0x0F)
    mbit = 0x80 if f.mask is not None else 0
    if form == 7:
        head = bytes([b0, mbit | (n & 0x7F)])
    elif form == 16:
        head = bytes([b0, mbit | 126]) + struct.pack(">H", n & 0xFFFF)
    else:
        head = bytes([b0, mbit | 127]) + struct.pack(">Q", n & 0xFFFFFFFFFFFFFFFF)
    if f.mask is not None:
        return head + f.mask + xor_mask(f.payload, f.mask)
    return head + f.payload


def header_len(f):
    n = len(f.payload) if f.declared is None else f.declared
    form = f.lenform or (7 if n <= 125 else 16 if n <= 0xFFFF else 64)
    return 2 + {7: 0, 16: 2, 64: 8}[form] + (4 if f.mask is not None else 0)


class WsError(Exception):
    pass


def decode_one(buf, pos=0):
    """-> (Frame, next_pos) | None when incomplete; raises WsError for bytes that can never become
    a valid frame (RSV bits, reserved opcode, fragmented / oversized control frame, 64-bit length
    with the top bit set)."""
    L = len(buf)
    if L - pos < 2:
        return None
    b0, b1 = buf[pos], buf[pos + 1]
    fin, rsv, op = bool(b0 & 0x80), (b0 >> 4) & 7, b0 & 0x0F
    masked, n = bool(b1 & 0x80), b1 & 0x7F
    if rsv:
        raise WsError("RSV bits set")
    if op not in KNOWN_OPS:
        raise WsError("reserved opcode %#x" % op)
    if op in CONTROL_OPS and (n > 125 or not fin):
        raise WsError("control frame fragmented or longer than 125")
    p = pos + 2
    form = 7
    if n == 126:
        if L - p < 2:
            return None
        n = struct.unpack_from(">H", buf, p)[0]
        p += 2
        form = 16
    elif n == 127:
        if L - p < 8:
            return None
        n = struct.unpack_from(">Q", buf, p)[0]
        p += 8
        form = 64
        if n >> 63:
            raise WsError("64-bit length with the most significant bit set")
    key = None
    if masked:
        if L - p < 4:
            return None
        key = bytes(buf[p:p + 4])
        p += 4
    if L - p < n:
        return None
    payload = bytes(buf[p:p + n])
    if key is not None:
        payload = xor_mask(payload, key)
    minimal = 7 if n <= 125 else 16 if n <= 0xFFFF else 64
    return Frame(op, payload, fin, key, 0, None if form == minimal else form), p + n


def decode_all(buf):
    """-> (frames, rest_bytes, error_text|None)"""
    frames, pos = [], 0
    buf = bytes(buf)
    while pos < len(buf):
        try:
            r = decode_one(buf, pos)
        except WsError as e:
            return frames, buf[pos:], str(e)
        if r is None:
            break
        frames.append(r[0])
        pos = r[1]
    return frames, buf[pos:], None


def close_payload(code=None, reason=b""):
    return b"" if code is None else struct.pack(">H", code) + reason


def parse_close(payload):
    """what an endpoint reports for a close frame: (1005, b'') when there is no status code."""
    if len(payload) < 2:
        return 1005, b""
    return struct.unpack(">H", payload[:2])[0], payload[2:]


# ------------------------------------------------------------------------------------------------
# receiver model: what an RFC 6455 endpoint delivers / answers for a frame list

class Expect:
    def __init__(self):
        self.msgs = []        # [('t'|'b', payload)]
        self.pongs = []       # ping payloads in order (each must be answered by a pong with the same payload)
        self.close = None     # (code, reason) reported for the peer's close frame
        self.bad_text = 0     # complete text messages that are not UTF-8 (must never be delivered as text)
        self.after_close = 0  # complete messages whose frames follow the close frame (discarded, RFC 6455 §1.4)
        self.seq_error = None
        self.first_bad = None # (index into msgs, pongs owed before it) of the first non-UTF-8 text message
        self.pings_at_msg = []  # per entry of msgs: number of pings received before that message was complete


def model(frames):
    e = Expect()
    cur = None
    closed = False
    for f in frames:
        if closed:
            if f.opcode in (OP_TEXT, OP_BIN) and f.fin:
                e.after_close += 1
            continue
        if f.opcode == OP_PING:
            e.pongs.append(f.payload)
        elif f.opcode == OP_PONG:
            pass
        elif f.opcode == OP_CLOSE:
            e.close = parse_close(f.payload)
            closed = True
        elif f.opcode in (OP_TEXT, OP_BIN):
            if cur is not None and e.seq_error is None:
                e.seq_error = "data frame inside a fragmented message"
            cur = ["t" if f.opcode == OP_TEXT else "b", [f.payload]]
            if f.fin:
                _complete(e, cur)
                cur = None
        elif f.opcode == OP_CONT:
            if cur is None:
                if e.seq_error is None:
                    e.seq_error = "continuation without a message"
                continue
            cur[1].append(f.payload)
            if f.fin:
                _complete(e, cur)
                cur = None
    return e


def _complete(e, cur):
    data = b"".join(cur[1])
    e.pings_at_msg.append(len(e.pongs))
    if cur[0] == "t" and not is_utf8(data):
        e.bad_text += 1
        if e.first_bad is None:
            e.first_bad = (len(e.msgs), len(e.pongs))
        e.msgs.append(("T!", data))     # marker: must NOT be delivered
    else:
        e.msgs.append((cur[0], data))


def wire_of_endpoint(expect, masked):
    """number of bytes a conforming endpoint puts on the wire for this expectation."""
    extra = 4 if masked else 0
    n = sum(2 + len(p) + extra for p in expect.pongs)
    if expect.close is not None:
        code, reason = expect.close
        n += 2 + 2 + len(reason) + extra
    return n


# ------------------------------------------------------------------------------------------------
# payload material

CP_EDGES = [0x00, 0x7F, 0x80, 0x7FF, 0x800, 0xFFFF, 0x10000, 0x10FFFF, 0xD7FF, 0xE000, 0xFFFD, 0x20AC, 0x1F600]

INVALID_UTF8 = [
    ("overlong-2", b"\xc0\xaf"), ("overlong-2b", b"\xc1\xbf"), ("overlong-3", b"\xe0\x80\xaf"), ("overlong-3b", b"\xe0\x9f\xbf"),
    ("overlong-4", b"\xf0\x80\x80\xaf"), ("overlong-4b", b"\xf0\x8f\xbf\xbf"), ("surrogate-lo", b"\xed\xa0\x80"),
    ("surrogate-hi", b"\xed\xbf\xbf"), ("beyond-10ffff", b"\xf4\x90\x80\x80"), ("lead-f5", b"\xf5\x80\x80\x80"),
    ("lead-f8", b"\xf8\x88\x80\x80\x80"), ("byte-ff", b"\xff"), ("byte-fe", b"\xfe"), ("lone-cont-80", b"\x80"),
    ("lone-cont-bf", b"\xbf"), ("bad-cont-2", b"\xc2\x41"), ("bad-cont-3a", b"\xe2\x28\xa1"), ("bad-cont-3b", b"\xe2\x82\x28"),
    ("bad-cont-4a", b"\xf0\x28\x8c\xbc"), ("bad-cont-4b", b"\xf0\x90\x28\xbc"), ("bad-cont-4c", b"\xf0\x90\x8c\x28"),
]
TRUNCATED_UTF8 = [("trunc-2", b"\xc2"), ("trunc-3", b"\xe2\x82"), ("trunc-4", b"\xf0\x9f\x98"), ("trunc-3a", b"\xe2")]


def rand_cp(rng):
    r = rng.random()
    if r < 0.08:
        return rng.choice(CP_EDGES)
    if r < 0.55:
        return rng.randrange(0x20, 0x7F)
    if r < 0.72:
        return rng.randrange(0x80, 0x800)
    if r < 0.9:
        c = rng.randrange(0x800, 0x10000)
        return c if not 0xD800 <= c <= 0xDFFF else 0x4E2D
    return rng.randrange(0x10000, 0x110000)


def utf8_text(rng, n):
    """valid UTF-8 of exactly n bytes with a mix of 1-4 byte sequences."""
    if n > 4096:
        unit = utf8_text(rng, 1024 + rng.randrange(64))
        out = (unit * (n // len(unit) + 1))[: n]
        # repair a sequence cut at the end
        while not is_utf8(out):
            k = 1
            while k <= 4 and not is_utf8(out[:-k]):
                k += 1
            out = out[:-k] + b"~" * k
        return out
    out = bytearray()
    while len(out) < n:
        b = chr(rand_cp(rng)).encode("utf-8")
        if len(out) + len(b) <= n:
            out += b
        else:
            out += b"." * (n - len(out))
    return bytes(out)


def rand_bytes(rng, n):
    if n <= 0:
        return b""
    if n > 4096:
        unit = bytes(rng.getrandbits(8) for _ in range(997))
        off = rng.randrange(997)
        return ((unit[off:] + unit) * (n // 997 + 2))[: n]
    return bytes(rng.getrandbits(8) for _ in range(n))


SIZE_EDGES = [0, 1, 2, 3, 4, 5, 7, 8, 124, 125, 126, 127, 128, 129, 255, 256]
SIZE_EDGES_16 = [65534, 65535, 65536, 65537]


def pick_size(rng, big_ok=True):
    r = rng.random()
    if r < 0.38:
        return rng.choice(SIZE_EDGES)
    if r < 0.7:
        return rng.randrange(0, 300)
    if r < 0.86:
        return rng.randrange(300, 5000)
    if not big_ok:
        return rng.choice([125, 126, 127, 1000])
    if r < 0.95:
        return rng.choice(SIZE_EDGES_16)
    return rng.choice([70000, 131072, 200000, rng.randrange(65536, 220000)])


def rand_mask(rng):
    r = rng.random()
    if r < 0.06:
        return b"\x00\x00\x00\x00"
    if r < 0.1:
        return b"\xff\xff\xff\xff"
    if r < 0.14:
        return bytes([0x81, 0x7e, 0x00, 0x7f])      # looks like a frame header
    return bytes(rng.getrandbits(8) for _ in range(4))


def split_sizes(rng, n, k):
    """k fragment sizes summing to n; zero-length fragments and edge sizes allowed."""
    if k == 1:
        return [n]
    cuts = []
    for _ in range(k - 1):
        r = rng.random()
        if r < 0.2 and n >= 126:
            cuts.append(rng.choice([125, 126, 127]))
        elif r < 0.28 and n >= 65537:
            cuts.append(rng.choice([65535, 65536]))
        elif r < 0.36:
            cuts.append(rng.choice([0, n]))
        else:
            cuts.append(rng.randrange(0, n + 1))
    cuts = sorted(min(c, n) for c in cuts)
    sizes, prev = [], 0
    for c in cuts + [n]:
        sizes.append(c - prev)
        prev = c
    return sizes


# ------------------------------------------------------------------------------------------------
# streams

class Stream:
    """one generated case: frames -> wire; the frame list is the ground truth."""
    def __init__(self, sid, side, kind, hclass=""):
        self.id, self.side, self.kind, self.hclass = sid, side, kind, hclass
        self.frames = []
        self.wire = b""
        self.marks = []          # frame start offsets (positions worth cutting around)
        self.cfgmax = DEFAULT_MAX
        self.segspec = "W"
        self.note = ""
        self.features = ()
        self.flood = 0           # bytes following a hostile header (for the buffering bound)
        self.expect = None
        self.raw_tail = b""      # hostile: bytes appended verbatim after the encoded frames

    def build(self):
        buf = bytearray()
        self.marks = []
        for f in self.frames:
            self.marks.append(len(buf))
            self.marks.append(len(buf) + header_len(f))
            buf += encode(f)
        buf += self.raw_tail
        self.wire = bytes(buf)
        self.expect = model(self.frames)
        return self

    def expect_wire(self):
        if self.kind in ("h", "m"):
            return 2 + 13 + (4 if self.side == "c" else 0)     # at least the sentinel's pong (or a close frame)
        if self.kind == "a":
            extra = 4 if self.side == "c" else 0
            return sum(2 + len(p) + extra for p in self.expect.pongs) + 2 + len(APP_CLOSE_PAYLOAD) + extra
        return wire_of_endpoint(self.expect, masked=(self.side == "c"))

    def sig(self):
        return "%s|%s|%s|%s" % (self.side, self.kind, self.hclass, "/".join(map(str, self.features)))

    def nseg(self):
        n = 0
        for it in self.segspec.split(";"):
            if it == "A":
                n += max(0, len(self.wire) - 1)
            elif it[:2] in ("L:", "X:"):
                n += len(it[2:].split(",")) if it[0] == "L" else len(it[2:].split("|"))
            elif it[:2] in ("M:", "R:"):
                n += int(it[2:])
            else:
                n += 1
        return n

    def line(self):
        return "\t".join([self.id, self.side, self.kind, self.hclass or "-", str(self.cfgmax), str(self.expect_wire()),
                          self.segspec, self.wire.hex()])

    def sample(self):
        return dict(id=self.id, side=self.side, kind=self.kind, hclass=self.hclass, note=self.note, wire_len=len(self.wire),
                    frames=[repr(f) for f in self.frames[:12]], nframes=len(self.frames), segspec=self.segspec[:80],
                    expected_messages=[(t, len(p)) for t, p in self.expect.msgs[:8]], expected_pongs=len(self.expect.pongs),
                    expected_close=(self.expect.close[0] if self.expect.close else None), wire_head=self.wire[:48].hex())


def _bucket(n):
    for b in (0, 1, 125, 126, 127, 65535, 65536):
        if n == b:
            return "=%d" % b
    return "<126" if n < 126 else "<64k" if n < 65536 else ">=64k"


def gen_valid(rng, sid, side, big_ok=True, want_close=None, nmsg=None, utf8_bad=False, trailing=False):
    """valid frame stream: messages (text/binary, 1-6 fragments), control frames between fragments
    and messages, optional close at any position; sentinel ping at the end when there is no close.
    utf8_bad: one text message is not UTF-8 (kind 'u'); trailing: data frames follow the close (kind 't')."""
    st = Stream(sid, side, "u" if utf8_bad else "t" if trailing else "v")
    mask_mode = rng.choice(["all", "all", "all", "none", "mixed"]) if side == "s" else rng.choice(["none", "none", "none", "all", "mixed"])

    def mk():
        if mask_mode == "all" or (mask_mode == "mixed" and rng.random() < 0.5):
            return rand_mask(rng)
        return None

    nmsg = nmsg if nmsg is not None else rng.choice([1, 1, 2, 2, 3, 4, 6])
    bad_at = rng.randrange(nmsg) if utf8_bad else -1
    feats = set()
    frames = []
    big_used = False

    def control(between):
        r = rng.random()
        if r < 0.6:
            n = rng.choice([0, 0, 1, 4, 16, 124, 125, rng.randrange(0, 126)])
            frames.append(Frame(OP_PING, rand_bytes(rng, n), True, mk()))
            feats.add("ping-in-frag" if between else "ping")
            if n == 125:
                feats.add("ping125")
        else:
            frames.append(Frame(OP_PONG, rand_bytes(rng, rng.choice([0, 3, 125])), True, mk()))
            feats.add("pong-in-frag" if between else "pong")

    for mi in range(nmsg):
        text = rng.random() < 0.55 or mi == bad_at
        size = pick_size(rng, big_ok and not big_used)
        if size > 60000:
            big_used = True
        if mi == bad_at:
            name, seq = rng.choice(INVALID_UTF8 + TRUNCATED_UTF8)
            size = max(size, len(seq))
            where = rng.choice(["start", "mid", "end"]) if (name, seq) not in TRUNCATED_UTF8 else "end"
            body = utf8_text(rng, size - len(seq))
            cutp = 0 if where == "start" else len(body) if where == "end" else rng.randrange(0, len(body) + 1)
            while cutp < len(body) and (body[cutp] & 0xC0) == 0x80:
                cutp += 1
            data = body[:cutp] + seq + body[cutp:]
            if is_utf8(data):       # e.g. a truncated lead completed by what follows: force it invalid
                data = body + seq
            assert not is_utf8(data)
            feats.add("badutf8:" + ("trunc" if name.startswith("trunc") else name.split("-")[0]))
            st.note = "text message %d carries invalid UTF-8 (%s at %s)" % (mi, name, where)
        elif text:
            data = utf8_text(rng, size)
        else:
            data = rand_bytes(rng, size)
        k = rng.choice([1, 1, 1, 2, 2, 3, 4, 6]) if size or rng.random() < 0.5 else 1
        sizes = split_sizes(rng, len(data), k)
        feats.add(("t" if text else "b") + _bucket(len(data)))
        feats.add("frag%d" % min(k, 4))
        if text and k > 1 and mi != bad_at:
            # was a multi-byte sequence split across fragments?
            off = 0
            for s in sizes[:-1]:
                off += s
                if 0 < off < len(data) and (data[off] & 0xC0) == 0x80:
                    feats.add("utf8-seq-split-across-fragments")
        off = 0
        for fi, s in enumerate(sizes):
            op = (OP_TEXT if text else OP_BIN) if fi == 0 else OP_CONT
            frames.append(Frame(op, data[off:off + s], fi == len(sizes) - 1, mk()))
            feats.add("len" + _bucket(s))
            if s == 0 and len(sizes) > 1:
                feats.add("empty-fragment")
            off += s
            if fi < len(sizes) - 1:
                while rng.random() < 0.3:
                    control(True)
        while rng.random() < 0.25:
            control(False)

    want_close = (rng.random() < 0.3) if want_close is None else want_close
    if trailing:
        want_close = True
    if want_close:
        r = rng.random()
        if r < 0.2:
            cp = b""
        elif r < 0.3:
            cp = close_payload(1000)
        else:
            cp = close_payload(rng.choice([1000, 1001, 1002, 1003, 1008, 1011, 3000, 4000, 4998]),
                               utf8_text(rng, rng.choice([0, 4, 20, 123])))
        cf = Frame(OP_CLOSE, cp, True, mk())
        feats.add("close" + ("-empty" if not cp else "-code" if len(cp) == 2 else "-reason"))
        if trailing:
            pos = rng.randrange(0, len(frames) + 1)
            frames.insert(pos, cf)
            # at least one complete message follows the close frame
            frames.append(Frame(OP_TEXT, b"after-close", True, mk()))
            frames.append(Frame(OP_BIN, b"after-close-2", True, mk()))
            feats.add("data-after-peer-close")
        else:
            pos = rng.randrange(0, len(frames) + 1) if rng.random() < 0.6 else len(frames)
            frames = frames[:pos] + [cf]
        open_msg = False
        for f in frames:
            if f.opcode == OP_CLOSE:
                break
            if f.opcode in (OP_TEXT, OP_BIN, OP_CONT):
                open_msg = not f.fin
        if open_msg:
            feats.add("close-inside-fragmented-message")
    else:
        frames.append(Frame(OP_PING, b"vf-sentinel-" + sid.encode()[-20:], True, mk()))
    st.frames = frames
    feats.add("mask-" + mask_mode)
    st.features = tuple(sorted(feats))
    return st.build()


APP_CLOSE_TRIGGER = b"vf-app-close"     # the harness' text handler answers this message with sendClose(1000, "bye")
APP_CLOSE_PAYLOAD = close_payload(1000, b"bye")


def gen_appclose(rng, sid, side):
    """kind 'a': the ENDPOINT starts the close handshake (its application calls sendClose from the text
    handler when the trigger message arrives); the peer keeps sending - pings, pongs, messages, also in
    the same write as the trigger - and only then answers with its own Close frame. RFC 6455 5.5.2:
    every ping received before the peer's Close frame is answered with a pong of equal payload, also
    after the endpoint's own Close (which only forbids further DATA frames, 5.5.1)."""
    st = Stream(sid, side, "a")
    pre = gen_valid(rng, sid, side, big_ok=False, want_close=False, nmsg=rng.choice([0, 1, 1, 2]))
    post = gen_valid(rng, sid, side, big_ok=False, want_close=False, nmsg=rng.choice([0, 0, 1, 2]))
    masked = side == "s" or rng.random() < 0.3
    mk = (lambda: rand_mask(rng)) if masked else (lambda: None)
    frames = pre.frames[:-1]                       # without the sentinel ping
    st.pings_before_trigger = sum(1 for f in frames if f.opcode == OP_PING)
    # the trigger, whole or fragmented (with a ping between the fragments now and then)
    if rng.random() < 0.3:
        k = rng.randrange(1, len(APP_CLOSE_TRIGGER))
        frames.append(Frame(OP_TEXT, APP_CLOSE_TRIGGER[:k], False, mk()))
        if rng.random() < 0.5:
            frames.append(Frame(OP_PING, b"in-trigger", True, mk()))
            st.pings_before_trigger += 1
        frames.append(Frame(OP_CONT, APP_CLOSE_TRIGGER[k:], True, mk()))
    else:
        frames.append(Frame(OP_TEXT, APP_CLOSE_TRIGGER, True, mk()))
    # behind the endpoint's Close: at least one ping, then whatever the second stream holds
    tail = [Frame(OP_PING, rand_bytes(rng, rng.choice([0, 1, 5, 16, 125])), True, mk())]
    if rng.random() < 0.5:
        tail.append(Frame(OP_PONG, rand_bytes(rng, rng.choice([0, 3])), True, mk()))
    tail += post.frames[:-1]
    if rng.random() < 0.6:
        tail.append(Frame(OP_PING, b"last-before-peer-close-" + sid.encode()[-8:], True, mk()))
    frames += tail
    r = rng.random()
    cp = b"" if r < 0.2 else close_payload(1000) if r < 0.5 else close_payload(rng.choice([1000, 1001, 3000]), utf8_text(rng, rng.choice([0, 4, 20])))
    frames.append(Frame(OP_CLOSE, cp, True, mk()))
    st.frames = frames
    st.note = "application calls sendClose(1000,'bye') on the trigger message; %d ping(s) before it, %d between the endpoint's Close and the peer's Close" % (
        st.pings_before_trigger, sum(1 for f in frames if f.opcode == OP_PING) - st.pings_before_trigger)
    feats = set(f for f in pre.features + post.features if isinstance(f, str) and (f.startswith("frag") or f.startswith("ping") or f.startswith("pong")))
    feats.add("app-close")
    feats.add("pings-after-own-close:%d" % min(3, sum(1 for f in tail if f.opcode == OP_PING)))
    if any(f.opcode in (OP_TEXT, OP_BIN) for f in tail):
        feats.add("data-received-after-own-close")
    st.features = tuple(sorted(feats))
    return st.build()


def appclose_corpus(rng, side, n, prefix):
    return [gen_appclose(rng, "%s%05d" % (prefix, i), side) for i in range(n)]


def interesting_cuts(st, rng, limit):
    L = len(st.wire)
    cand = set()
    for m in st.marks:
        for d in range(-3, 16):
            if 0 < m + d < L:
                cand.add(m + d)
    cand = sorted(cand)
    if len(cand) > limit:
        cand = sorted(rng.sample(cand, limit))
    extra = [rng.randrange(1, L) for _ in range(min(8, max(0, L - 1)))]
    return sorted(set(cand + extra))


def seg_inproc(st, rng, all_limit=700, listed=90, multi=3):
    """segmentation plan for the in-process (exact) server mode."""
    L = len(st.wire)
    items = ["W"]
    if L <= all_limit:
        items.append("A")
    else:
        items.append("L:" + ",".join(map(str, interesting_cuts(st, rng, listed))))
    if L > 2:
        items.append("M:%d" % multi)
    if L <= 3000:
        items.append("B:1")
    else:
        items.append("B:%d" % max(7, L // 150))
    st.segspec = ";".join(items)
    return st


def seg_socket(st, rng, client):
    """segmentation plan for the loopback modes (kernel-legal short reads forced by the recv shim,
    paced multi-cuts)."""
    L = len(st.wire)
    items = ["W"]
    if L <= 2500:
        items.append("Z:1")
    if L <= 20000:
        items.append("Z:%d" % rng.choice([2, 3, 5, 7, 13]))
    if L > 6000:
        items.append("Z:%d" % max(rng.choice([1000, 1460, 4096]), L // 150))
    items.append("R:2")
    if L > 4:
        cuts = sorted(set(interesting_cuts(st, rng, 4)))[:5]
        items.append("P:" + ",".join(map(str, cuts)))
    if client:
        items.append("J")
    st.segspec = ";".join(items)
    return st


def copy_for(st, segfn, *a):
    s2 = Stream(st.id, st.side, st.kind, st.hclass)
    s2.__dict__.update(st.__dict__)
    segfn(s2, *a)
    return s2


def valid_corpus(rng, side, n, prefix, big_every=9):
    out = []
    for i in range(n):
        r = rng.random()
        big = (i % big_every == big_every - 1)
        if r < 0.12:
            st = gen_valid(rng, "%s%05d" % (prefix, i), side, big_ok=big, utf8_bad=True)
        elif r < 0.2:
            st = gen_valid(rng, "%s%05d" % (prefix, i), side, big_ok=False, trailing=True)
        else:
            st = gen_valid(rng, "%s%05d" % (prefix, i), side, big_ok=big)
        out.append(st)
    # directed: every length-encoding edge as a single unfragmented message, masked and not
    j = n
    for size in (125, 126, 127, 65535, 65536):
        for masked in (True, False):
            for text in (True, False):
                st = Stream("%s%05d" % (prefix, j), side, "v")
                j += 1
                data = utf8_text(rng, size) if text else rand_bytes(rng, size)
                mk = rand_mask(rng) if masked else None
                st.frames = [Frame(OP_TEXT if text else OP_BIN, data, True, mk),
                             Frame(OP_PING, b"vf-sentinel-" + st.id.encode(), True, mk)]
                st.features = ("directed", "len=%d" % size, "masked" if masked else "unmasked", "t" if text else "b")
                out.append(st.build())
    # directed: message exactly at a small configured maximum must be delivered
    st = Stream("%s%05d" % (prefix, j), side, "v")
    st.cfgmax = SMALL_MAX
    st.frames = [Frame(OP_BIN, rand_bytes(rng, 1000), False, rand_mask(rng)), Frame(OP_CONT, rand_bytes(rng, SMALL_MAX - 1000), True, rand_mask(rng)),
                 Frame(OP_PING, b"vf-sentinel-max", True, rand_mask(rng))]
    st.features = ("directed", "message-exactly-at-configured-maximum")
    out.append(st.build())
    return out


# ------------------------------------------------------------------------------------------------
# hostile dictionary (robustness only: no exception, no over-allocation, bounded buffering, no
# silent wedge). Every entry = [valid text "before"] + hostile bytes + filler of valid frames +
# sentinel ping.

U64 = (1 << 64) - 1


def _filler(rng, total, unit=1000):
    frames = []
    n = 0
    while n < total:
        frames.append(Frame(OP_BIN, rand_bytes(rng, unit), True, rand_mask(rng)))
        n += unit + 8
    return frames


def hostile_corpus(rng, side, prefix, quick=True):
    out = []
    idx = [0]

    def new(hclass, hostile, note, cfgmax=DEFAULT_MAX, flood=0, prefix_ok=True, tail_frames=None):
        st = Stream("%s%04d" % (prefix, idx[0]), side, "h", hclass)
        idx[0] += 1
        st.cfgmax = cfgmax
        st.note = note
        st.flood = flood
        pre = [Frame(OP_TEXT, b"before", True, rand_mask(rng))] if prefix_ok else []
        tail = list(tail_frames) if tail_frames is not None else [Frame(OP_TEXT, b"after", True, rand_mask(rng))]
        if flood:
            tail = _filler(rng, flood) + tail
        tail.append(Frame(OP_PING, b"vf-sentinel-h", True, rand_mask(rng)))
        # encode: prefix frames, hostile bytes/frames, tail
        buf = bytearray()
        st.frames = pre
        for f in pre:
            buf += encode(f)
        st.hostile_at = len(buf)
        hb = b"".join(encode(h) if isinstance(h, Frame) else h for h in hostile)
        buf += hb
        st.hostile_len = len(hb)
        for f in tail:
            buf += encode(f)
        st.wire = bytes(buf)
        st.marks = [st.hostile_at, st.hostile_at + len(hb)]
        st.expect = model(pre)
        st.tail_frames = tail
        st.features = (hclass, note)
        L = len(st.wire)
        # the first segmentation is the reference one: for flood cases 4096-byte blocks, so that
        # "bytes received in one call" stay small against the buffering bound
        if L <= 3000:
            items = ["W", "B:1", "M:2"]
        else:
            items = ["B:4096", "W", "M:2"]
        st.segspec = ";".join(items)
        out.append(st)
        return st

    mk = lambda: rand_mask(rng)
    # --- lengths that wrap the completeness check
    for masked in (False, True):
        m = mk() if masked else None
        new("len-2^64-1", [Frame(OP_TEXT, b"xxxx", True, m, declared=U64)], "text frame declaring 2^64-1 payload bytes, %s" % ("masked" if masked else "unmasked"))
        new("len-2^64-1", [Frame(OP_BIN, b"", False, m, declared=U64)], "binary first fragment declaring 2^64-1, %s" % ("masked" if masked else "unmasked"))
    for k in (2, 9, 10, 11, 14, 15, 16):
        new("len-2^64-k", [Frame(OP_BIN, b"yy", True, mk() if k % 2 else None, declared=U64 + 1 - k)], "binary frame declaring 2^64-%d" % k)
    new("len-2^64-1", [Frame(OP_CONT, b"", True, None, declared=U64)], "continuation declaring 2^64-1", prefix_ok=False)
    # the same lengths with a small configured maximum and a flood behind them: once they no longer throw
    # they must not be buffered towards either
    new("len-2^64-1", [Frame(OP_BIN, b"", True, mk(), declared=U64)], "binary frame declaring 2^64-1 with maximum %d, followed by %d KiB" % (SMALL_MAX, FLOOD // KIB),
        cfgmax=SMALL_MAX, flood=FLOOD)
    new("len-2^64-k", [Frame(OP_BIN, b"", True, None, declared=U64 - 8)], "unmasked binary frame declaring 2^64-9 with maximum %d, followed by %d KiB" % (SMALL_MAX, FLOOD // KIB),
        cfgmax=SMALL_MAX, flood=FLOOD)
    # --- lengths that can never be satisfied / lie beyond the configured maximum
    for n, txt in ((1 << 63, "2^63"), ((1 << 63) - 1, "2^63-1"), (1 << 62, "2^62"), (1 << 40, "2^40"), (1 << 32, "2^32"), (1 << 31, "2^31"),
                   (16 * 1024 * 1024 + 1, "16MiB+1"), (SMALL_MAX * 256, "256 x maximum"), (FLOOD + 100000, "flood+100000")):
        new("declared-length-beyond-max", [Frame(OP_BIN, b"", True, mk(), declared=n)],
            "binary frame declaring %s bytes with maximum %d, followed by %d KiB" % (txt, SMALL_MAX, FLOOD // KIB), cfgmax=SMALL_MAX, flood=FLOOD)
    new("declared-length-beyond-max", [Frame(OP_TEXT, b"", False, None, declared=1 << 33)],
        "unmasked text first fragment declaring 2^33 with maximum %d" % SMALL_MAX, cfgmax=SMALL_MAX, flood=FLOOD)
    for n, txt, form in ((SMALL_MAX + 1, "maximum+1 (16-bit form)", None), (SMALL_MAX + 1, "maximum+1 (64-bit form)", 64), (65535, "65535", None), (65536, "65536", None)):
        new("declared-length-beyond-max", [Frame(OP_BIN, b"", True, mk(), declared=n, lenform=form)],
            "binary frame declaring %s with maximum %d, followed by %d KiB" % (txt, SMALL_MAX, FLOOD // KIB), cfgmax=SMALL_MAX, flood=FLOOD)
    # --- fragments that sum beyond the maximum
    new("fragments-beyond-max", [Frame(OP_BIN, b"z", False, mk())] + [Frame(OP_CONT, rand_bytes(rng, 1000), False, mk()) for _ in range(FLOOD // 1000)],
        "message of %d x 1000-byte continuation fragments with maximum %d" % (FLOOD // 1000, SMALL_MAX), cfgmax=SMALL_MAX)
    new("message-just-beyond-max", [Frame(OP_BIN, rand_bytes(rng, SMALL_MAX + 1), True, mk())], "single frame of maximum+1 bytes", cfgmax=SMALL_MAX)
    # --- control frames that can never be valid
    for op, nm in ((OP_PING, "ping"), (OP_PONG, "pong"), (OP_CLOSE, "close")):
        new("control-len126", [Frame(op, rand_bytes(rng, 126) if op != OP_CLOSE else close_payload(1000, b"r" * 124), True, mk())],
            "%s with 16-bit length code (126 bytes)" % nm, flood=64 * KIB)
        new("control-len127", [Frame(op, rand_bytes(rng, 10) if op != OP_CLOSE else close_payload(1000, b"r" * 8), True, mk(), lenform=64)],
            "%s with 64-bit length code (10 bytes)" % nm, flood=64 * KIB)
        new("control-nofin", [Frame(op, b"abc" if op != OP_CLOSE else close_payload(1000), False, mk())], "%s with FIN=0" % nm, flood=64 * KIB)
    new("control-len127", [Frame(OP_PING, b"", True, None, lenform=64, declared=U64)], "unmasked ping declaring 2^64-1", flood=64 * KIB)
    # --- reserved opcodes / RSV bits / non-minimal lengths / sequence errors
    for op in (3, 4, 7, 0xB, 0xF):
        new("reserved-opcode", [Frame(op, b"data", True, mk())], "opcode %#x" % op)
    new("reserved-opcode", [Frame(5, b"", False, mk())], "opcode 0x5 FIN=0")
    for rsv in (1, 2, 4, 7):
        new("rsv-bits", [Frame(OP_TEXT, b"hello", True, mk(), rsv=rsv)], "text with RSV=%d" % rsv)
    new("rsv-bits", [Frame(OP_PING, b"p", True, mk(), rsv=4)], "ping with RSV1")
    new("rsv-bits", [Frame(OP_BIN, rand_bytes(rng, 300), True, None, rsv=2)], "unmasked binary(300) with RSV2")
    new("nonminimal-len", [Frame(OP_TEXT, b"hello", True, mk(), lenform=16)], "5-byte text in 16-bit form")
    new("nonminimal-len", [Frame(OP_TEXT, b"hello", True, mk(), lenform=64)], "5-byte text in 64-bit form")
    new("nonminimal-len", [Frame(OP_BIN, rand_bytes(rng, 300), True, mk(), lenform=64)], "300-byte binary in 64-bit form")
    new("continuation-without-start", [Frame(OP_CONT, b"orphan", True, mk())], "continuation FIN=1 with no message in progress")
    new("continuation-without-start", [Frame(OP_CONT, b"orphan", False, mk()), Frame(OP_CONT, b"2", True, mk())], "two continuations with no message in progress", prefix_ok=False)
    new("start-inside-fragments", [Frame(OP_TEXT, b"one", False, mk()), Frame(OP_BIN, b"two", True, mk()), Frame(OP_CONT, b"three", True, mk())],
        "new data frame while a fragmented message is in progress")
    new("close-len1", [Frame(OP_CLOSE, b"\x03", True, mk())], "close frame with a 1-byte payload")
    new("close-bad-reason", [Frame(OP_CLOSE, close_payload(1000, b"\xff\xfe"), True, mk())], "close reason is not UTF-8")
    new("header-only", [bytes([0x82])], "stream ends after the first header byte", tail_frames=[])
    out[-1].wire = out[-1].wire[: out[-1].hostile_at + 1]
    new("header-only", [bytes([0x82, 0xFF, 0x00, 0x00])], "stream ends inside a 64-bit length", tail_frames=[])
    out[-1].wire = out[-1].wire[: out[-1].hostile_at + 4]
    return out


def mutate(rng, wire):
    b = bytearray(wire)
    for _ in range(rng.choice([1, 1, 2, 3, 6])):
        if not b:
            break
        r = rng.random()
        p = rng.randrange(len(b))
        if r < 0.35:
            b[p] ^= 1 << rng.randrange(8)
        elif r < 0.5:
            b[p] = rng.choice([0x00, 0x7e, 0x7f, 0x7d, 0x80, 0xfe, 0xff, 0x88, 0x89, 0x8a, 0x81, 0x01])
        elif r < 0.62:
            del b[p:p + rng.choice([1, 1, 2, 4, 8])]
        elif r < 0.74:
            b[p:p] = bytes(rng.getrandbits(8) for _ in range(rng.choice([1, 2, 4, 8, 10])))
        elif r < 0.84:
            b[p:p] = rng.choice([b"\x81\x7f" + b"\xff" * 8, b"\x89\x7e\x00\x7e", b"\x82\xff" + b"\xff" * 8, b"\x88\x00", b"\x80\x00", b"\x8f\x00", b"\xf1\x05"])
        elif r < 0.92:
            del b[p:]
        else:
            q = rng.randrange(len(b))
            b[p:p] = b[min(p, q):max(p, q)][:64]
    return bytes(b)


def mutated_corpus(rng, valid, n, side, prefix):
    out = []
    small = [s for s in valid if len(s.wire) <= 20000 and s.kind == "v"]
    for i in range(n):
        src = rng.choice(small)
        st = Stream("%s%05d" % (prefix, i), side, "m", "mutated")
        st.cfgmax = rng.choice([DEFAULT_MAX, DEFAULT_MAX, SMALL_MAX])
        st.wire = mutate(rng, src.wire)
        if not st.wire:
            st.wire = b"\x81"
        st.frames = []
        st.expect = model([])
        st.note = "mutation of %s" % src.id
        st.features = ("mutated", len(st.wire) // 64)
        L = len(st.wire)
        st.segspec = "W;M:2" + (";B:1" if L <= 1500 else ";B:%d" % max(7, L // 120))
        out.append(st)
    return out


# ------------------------------------------------------------------------------------------------
# frame-level cases (direct parse / serialize calls)

def frame_cases(rng, n):
    """specs for the `frame` mode cross check with this codec. Lines:
       S <id> <fin> <opcode> <maskhex|-> <payloadhex>     serialize spec (iora builds + serializes + parses back)
       P <id> <wirehex>                                   parse bytes produced by this encoder"""
    specs = []
    ops = [OP_CONT, OP_TEXT, OP_BIN, OP_CLOSE, OP_PING, OP_PONG]
    sizes = [0, 1, 2, 124, 125, 126, 127, 128, 1000, 65534, 65535, 65536, 65537]
    i = 0
    for op in ops:
        for size in sizes:
            if op in CONTROL_OPS and size > 125:
                continue
            for masked in (False, True):
                for fin in ((True,) if op in CONTROL_OPS else (True, False)):
                    specs.append(("fs%05d" % i, Frame(op, rand_bytes(rng, size), fin, rand_mask(rng) if masked else None)))
                    i += 1
    while len(specs) < n:
        op = rng.choice(ops)
        size = rng.randrange(0, 126) if op in CONTROL_OPS else pick_size(rng, rng.random() < 0.15)
        fin = True if op in CONTROL_OPS else rng.random() < 0.6
        specs.append(("fs%05d" % i, Frame(op, rand_bytes(rng, size), fin, rand_mask(rng) if rng.random() < 0.5 else None)))
        i += 1
    return specs


def frame_hostile(rng):
    """(id, hclass, note, bytes): headers handed to WebSocketFrame::parse with `avail` bytes present."""
    out = []

    def add(hclass, note, f, extra=b""):
        out.append(("fh%04d" % len(out), hclass, note, (encode(f) if isinstance(f, Frame) else f) + extra))

    for masked in (False, True):
        m = rand_mask(rng) if masked else None
        t = "masked" if masked else "unmasked"
        add("len-2^64-1", "text 2^64-1 %s, 4 payload bytes present" % t, Frame(OP_TEXT, b"abcd", True, m, declared=U64))
        add("len-2^64-1", "binary 2^64-1 %s, header only" % t, Frame(OP_BIN, b"", True, m, declared=U64))
        add("len-2^64-1", "continuation 2^64-1 %s, 1000 bytes present" % t, Frame(OP_CONT, rand_bytes(rng, 1000), False, m, declared=U64))
        for k in range(2, 17):
            add("len-2^64-k", "binary 2^64-%d %s, 20 bytes present" % (k, t), Frame(OP_BIN, rand_bytes(rng, 20), True, m, declared=U64 + 1 - k))
        for n, txt in ((1 << 63, "2^63"), ((1 << 63) - 1, "2^63-1"), ((1 << 63) + 1, "2^63+1"), (1 << 62, "2^62"), (1 << 48, "2^48"), (1 << 32, "2^32"),
                       ((1 << 32) - 1, "2^32-1"), (1 << 31, "2^31"), (1 << 24, "2^24")):
            add("len-huge", "binary %s %s, 64 bytes present" % (txt, t), Frame(OP_BIN, rand_bytes(rng, 64), True, m, declared=n))
        add("control-len126", "ping len code 126 %s" % t, Frame(OP_PING, rand_bytes(rng, 126), True, m))
        add("control-len127", "ping len code 127 %s" % t, Frame(OP_PING, rand_bytes(rng, 8), True, m, lenform=64))
        add("control-len127", "close declaring 2^64-1 %s" % t, Frame(OP_CLOSE, b"", True, m, lenform=64, declared=U64))
        add("control-nofin", "pong FIN=0 %s" % t, Frame(OP_PONG, b"x", False, m))
        for rsv in (1, 2, 4, 7):
            add("rsv-bits", "text RSV=%d %s" % (rsv, t), Frame(OP_TEXT, b"hello", True, m, rsv=rsv), extra=b"\x81\x00")
        for op in (3, 7, 0xB, 0xF):
            add("reserved-opcode", "opcode %#x %s" % (op, t), Frame(op, b"abc", True, m))
        add("nonminimal-len", "5 bytes in 64-bit form %s" % t, Frame(OP_TEXT, b"hello", True, m, lenform=64))
    for _ in range(400):
        n = rng.choice([2, 3, 4, 6, 10, 14, 16, 40])
        b = bytearray(rng.getrandbits(8) for _ in range(n))
        if rng.random() < 0.6:
            b[0] &= 0x8F                     # no RSV: reach the length logic
        if rng.random() < 0.5:
            b[1] = (b[1] & 0x80) | rng.choice([126, 127, 127, 125])
        if rng.random() < 0.4 and n >= 10:
            b[2:10] = rng.choice([b"\xff" * 8, b"\x80" + b"\x00" * 7, b"\x7f" + b"\xff" * 7, b"\xff" * 7 + b"\xf0", b"\x00" * 7 + b"\x01"])
        hc = "random-header"
        if (b[1] & 0x7F) == 127 and n >= 10:
            d = int.from_bytes(b[2:10], "big")
            hc = "len-2^64-1" if d == U64 else "len-2^64-k" if d >= U64 - 15 else "len-huge" if d >= 1 << 24 else hc
        if (b[0] & 0x0F) in CONTROL_OPS and hc != "random-header":
            hc = "control-len127"
        add(hc, "random %d-byte header %s" % (n, bytes(b[:10]).hex()), bytes(b))
    return out
