#!/usr/bin/python3
# usage: lib/mutant.py <Cxx> <name> <relative header> <old> <new> [count]
# Applies a textual mutation to a scratch copy of /repo/include, runs the quick check against it
# (VF_REPO_INCLUDE) and prints the exit code and violation keys. The scratch copy is removed.
import os, shutil, subprocess, sys, json, re
prop, name, rel, old, new = sys.argv[1:6]
count = int(sys.argv[6]) if len(sys.argv) > 6 else 1
tmp = f"/tmp/vf-mut-{prop}-{name}"
shutil.rmtree(tmp, ignore_errors=True)
shutil.copytree("/repo/include", tmp + "/include")
p = os.path.join(tmp, "include", rel)
s = open(p).read()
if s.count(old) != count:
    print(f"MUTANT {name}: pattern occurs {s.count(old)} times, expected {count}"); shutil.rmtree(tmp); sys.exit(3)
open(p, "w").write(s.replace(old, new))
env = dict(os.environ, VF_REPO_INCLUDE=tmp + "/include", VERIF_SEED=os.environ.get("VERIF_SEED", "1"))
r = subprocess.run(["./check", prop, "--tier", "quick"], cwd="/verif", env=env, capture_output=True, text=True, timeout=3000)
keys = re.findall(r"key=(\S+) count=(\d+)", r.stdout)
print(f"MUTANT {prop}/{name}: exit={r.returncode} keys={keys[:8]}")
if r.returncode not in (0, 1):
    print(r.stdout[-1500:], r.stderr[-1500:])
shutil.rmtree(tmp, ignore_errors=True)
# restore evidence of the real tree is the caller's job (re-run the check)
